"""Hand-written sensitivity mutants (small semantic changes that still compile). Each is applied to a scratch
copy of /repo/include by tools/mutants.py. 'old' must occur in 'file'; the first occurrence is replaced."""

BQ = "quill/core/BoundedSPSCQueue.h"
UQ = "quill/core/UnboundedSPSCQueue.h"

MUTANTS = [
    # ---------------- C01 bounded queue ----------------
    {"id": "c01-space-check-le", "props": ["C01"], "file": BQ,
     "desc": "second space check '< n' -> '<= n - 1 + 0' i.e. grants one byte too many ( < n -> + 1 < n )",
     "old": """      if ((_capacity - static_cast<integer_type>(_writer_pos - _reader_pos_cache)) < n)
      {
        return nullptr;""",
     "new": """      if ((_capacity - static_cast<integer_type>(_writer_pos - _reader_pos_cache)) + 1 < n)
      {
        return nullptr;"""},
    {"id": "c01-drop-acquire-reload", "props": ["C01"], "file": BQ,
     "desc": "prepare_write reloads the reader position relaxed instead of acquire",
     "old": "_reader_pos_cache = _atomic_reader_pos.load(std::memory_order_acquire);",
     "new": "_reader_pos_cache = _atomic_reader_pos.load(std::memory_order_relaxed);"},
    {"id": "c01-writer-release-relaxed", "props": ["C01"], "file": BQ,
     "desc": "commit_write publishes with relaxed instead of release",
     "old": "_atomic_writer_pos.store(_writer_pos, std::memory_order_release);",
     "new": "_atomic_writer_pos.store(_writer_pos, std::memory_order_relaxed);"},
    {"id": "c01-reader-release-relaxed", "props": ["C01"], "file": BQ,
     "desc": "commit_read publishes with relaxed instead of release",
     "old": "_atomic_reader_pos.store(_reader_pos, std::memory_order_release);",
     "new": "_atomic_reader_pos.store(_reader_pos, std::memory_order_relaxed);"},
    {"id": "c01-empty-acquire-relaxed", "props": ["C01"], "file": BQ,
     "desc": "empty() loads the writer position relaxed instead of acquire",
     "old": "_writer_pos_cache = _atomic_writer_pos.load(std::memory_order_acquire);",
     "new": "_writer_pos_cache = _atomic_writer_pos.load(std::memory_order_relaxed);"},
    {"id": "c01-mask-capacity", "props": ["C01"], "file": BQ,
     "desc": "read position masked with _capacity instead of _mask",
     "old": "return _storage + (_reader_pos & _mask);",
     "new": "return _storage + (_reader_pos & _capacity);"},
    {"id": "c01-publish-in-finish-write", "props": ["C01"], "file": BQ,
     "desc": "finish_write already publishes the writer position",
     "old": "void finish_write(integer_type n) noexcept { _writer_pos += n; }",
     "new": "void finish_write(integer_type n) noexcept { _writer_pos += n; _atomic_writer_pos.store(_writer_pos, std::memory_order_release); }"},
    {"id": "c01-distance-cast-removed", "props": ["C01"], "file": BQ,
     "desc": "modular distance computed without the cast to integer_type (breaks at counter wrap)",
     "old": """    if ((_capacity - static_cast<integer_type>(_writer_pos - _reader_pos_cache)) < n)
    {
      // not enough space, we need to load reader and re-check""",
     "new": """    if ((_capacity - (_writer_pos - _reader_pos_cache)) < n)
    {
      // not enough space, we need to load reader and re-check"""},
    {"id": "c01-commit-read-early-publish", "props": ["C01"], "file": BQ,
     "desc": "finish_read publishes immediately one byte more than read",
     "old": "void finish_read(integer_type n) noexcept { _reader_pos += n; }",
     "new": "void finish_read(integer_type n) noexcept { _reader_pos += n; _atomic_reader_pos.store(_reader_pos + 1, std::memory_order_release); }"},
    # ---------------- C02 unbounded queue ----------------
    {"id": "c02-no-recheck-in-read-next", "props": ["C02"], "file": UQ,
     "desc": "_read_next_queue does not re-check the old buffer before switching",
     "old": """    ReadResult read_result{_consumer->bounded_queue.prepare_read()};

    if (read_result.read_pos)
    {
      return read_result;
    }

    // Switch to the new buffer for reading""",
     "new": """    ReadResult read_result{nullptr};

    // Switch to the new buffer for reading"""},
    {"id": "c02-no-commit-before-switch", "props": ["C02"], "file": UQ,
     "desc": "_handle_full_queue does not commit_write the old buffer before publishing next (harmless with per-record commits: expected equivalent)",
     "old": """    // commit previous write to the old queue before switching
    _producer->bounded_queue.commit_write();
""",
     "new": """    // commit previous write to the old queue before switching
"""},
    {"id": "c02-next-store-relaxed", "props": ["C02"], "file": UQ,
     "desc": "grow publishes the next node with relaxed instead of release",
     "old": """    // store the new node pointer as next in the current node
    _producer->next.store(next_node, std::memory_order_release);

    // producer is now using the next node
    _producer = next_node;

    // reserve again""",
     "new": """    // store the new node pointer as next in the current node
    _producer->next.store(next_node, std::memory_order_relaxed);

    // producer is now using the next node
    _producer = next_node;

    // reserve again"""},
    {"id": "c02-next-load-relaxed", "props": ["C02"], "file": UQ,
     "desc": "consumer loads next with relaxed instead of acquire",
     "old": """    // the buffer is empty check if another buffer exists
    Node* next_node = _consumer->next.load(std::memory_order_acquire);""",
     "new": """    // the buffer is empty check if another buffer exists
    Node* next_node = _consumer->next.load(std::memory_order_relaxed);"""},
    {"id": "c02-delete-before-commit-read", "props": ["C02"], "file": UQ,
     "desc": "old node deleted before its capacity is read (use after free)",
     "old": """    auto const previous_capacity = _consumer->bounded_queue.capacity();
    delete _consumer;
""",
     "new": """    delete _consumer;
    auto const previous_capacity = _consumer->bounded_queue.capacity();
"""},
    {"id": "c02-cap-check-ge", "props": ["C02"], "file": UQ,
     "desc": "cap check capacity > max -> >= max (stops one doubling early)",
     "old": "if (QUILL_UNLIKELY(capacity > _max_capacity))",
     "new": "if (QUILL_UNLIKELY(capacity >= _max_capacity))"},
    {"id": "c02-nullptr-instead-of-throw", "props": ["C02"], "file": UQ,
     "desc": "oversize record returns nullptr instead of throwing",
     "old": "      if (nbytes > _max_capacity)\n      {",
     "new": "      if (false && nbytes > _max_capacity)\n      {"},
    {"id": "c02-shrink-cond-off", "props": ["C02"], "file": UQ,
     "desc": "shrink accepted up to the full capacity instead of half",
     "old": "if (capacity > (_producer->bounded_queue.capacity() >> 1))",
     "new": "if (capacity > (_producer->bounded_queue.capacity()))"},
    {"id": "c02-grow-beyond-max", "props": ["C02"], "file": UQ,
     "desc": "cap check removed for records that fit twice the max",
     "old": "if (QUILL_UNLIKELY(capacity > _max_capacity))",
     "new": "if (QUILL_UNLIKELY(capacity > _max_capacity * 2))"},
    {"id": "c02-switch-without-empty-old", "props": ["C02"], "file": UQ,
     "desc": "prepare_read switches as soon as next exists, before the old buffer is drained",
     "old": """    ReadResult read_result{_consumer->bounded_queue.prepare_read()};

    if (read_result.read_pos != nullptr)
    {
      return read_result;
    }

    // the buffer is empty check if another buffer exists""",
     "new": """    ReadResult read_result{_consumer->bounded_queue.prepare_read()};

    if ((read_result.read_pos != nullptr) && (_consumer->next.load(std::memory_order_acquire) == nullptr))
    {
      return read_result;
    }

    // the buffer is empty check if another buffer exists"""},
]

BW = "quill/backend/BackendWorker.h"
TEB = "quill/backend/TransitEventBuffer.h"
BTS = "quill/backend/BacktraceStorage.h"
LG = "quill/Logger.h"
TCM = "quill/core/ThreadContextManager.h"
LM = "quill/core/LoggerManager.h"
SK = "quill/sinks/Sink.h"
SM = "quill/core/SinkManager.h"

MUTANTS += [
    # ---------------- C03 ----------------
    {"id": "c03-expand-from-zero", "props": ["C03"], "file": TEB,
     "desc": "_expand copies from physical index i instead of reader_pos + i",
     "old": "new_storage[i] = std::move(_storage[(_reader_pos + i) & _mask]);",
     "new": "new_storage[i] = std::move(_storage[i & _mask]);"},
    {"id": "c03-reclaim-with-buffered-events", "props": ["C03", "C20"], "file": BW,
     "desc": "invalid context reclaimed when its queue is empty even if its transit buffer still holds events",
     "old": """          return thread_context->get_spsc_queue_union().bounded_spsc_queue.empty() &&
            thread_context->_transit_event_buffer->empty();""",
     "new": """          return thread_context->get_spsc_queue_union().bounded_spsc_queue.empty();"""},
    {"id": "c03-reclaim-with-buffered-events-unbounded", "props": ["C03"], "file": BW,
     "desc": "same for unbounded queues",
     "old": """          return thread_context->get_spsc_queue_union().unbounded_spsc_queue.empty() &&
            thread_context->_transit_event_buffer->empty();""",
     "new": """          return thread_context->get_spsc_queue_union().unbounded_spsc_queue.empty();"""},
    {"id": "c03-shrink-nonempty-buffer", "props": ["C03", "C20"], "file": TEB,
     "desc": "try_shrink does not require the buffer to be empty",
     "old": "if (_shrink_requested && empty())",
     "new": "if (_shrink_requested)"},
    {"id": "c03-finish-read-before-ts-check", "props": ["C03", "C05"], "file": BW,
     "desc": "a record that is too young (ts > ts_now) is consumed anyway: early return replaced by skipping it",
     "old": """        // We return at this point without adding the current event to the buffer.
        return false;""",
     "new": """        // We return at this point without adding the current event to the buffer.
        return _options.transit_events_hard_limit > 16;"""},
    # ---------------- C05 ----------------
    {"id": "c05-grace-added", "props": ["C05"], "file": BW,
     "desc": "grace period added to now instead of subtracted",
     "old": "(detail::get_timestamp<std::chrono::system_clock>() - _options.log_timestamp_ordering_grace_period)",
     "new": "(detail::get_timestamp<std::chrono::system_clock>() + _options.log_timestamp_ordering_grace_period)"},
    {"id": "c05-batch-loop-no-recheck", "props": ["C05", "C06"], "file": BW,
     "desc": "batch loop in _poll does not re-check for uncached events of threads with an empty buffer",
     "old": """        while (!has_pending_events_for_caching_when_transit_event_buffer_empty() &&
               _process_lowest_timestamp_transit_event())
        {
#if defined(QUILL_VERIF)
          QUILL_VERIF_YIELD(4);
#endif
          // We need to be cautious because there are log messages in the lock-free queues
          // that have not yet been cached in the transit event buffer. Logging only the cached""",
     "new": """        while (_process_lowest_timestamp_transit_event())
        {
#if defined(QUILL_VERIF)
          QUILL_VERIF_YIELD(4);
#endif
          // We need to be cautious because there are log messages in the lock-free queues
          // that have not yet been cached in the transit event buffer. Logging only the cached"""},
    {"id": "c05-pending-ignores-bounded", "props": ["C05"], "file": BW,
     "desc": "has_pending_events_for_caching... ignores bounded queues",
     "old": """        if (thread_context->has_bounded_queue_type() &&
            !thread_context->get_spsc_queue_union().bounded_spsc_queue.empty())
        {
          return true;
        }""",
     "new": """        if (false && thread_context->has_bounded_queue_type() &&
            !thread_context->get_spsc_queue_union().bounded_spsc_queue.empty())
        {
          return true;
        }"""},
    {"id": "c05-revert-f10", "props": ["C05", "C06"], "file": BW,
     "desc": "cache refresh after ts_now removed again (finding F10 comes back)",
     "old": """    _update_active_thread_contexts_cache();

    size_t cached_transit_events_count{0};""",
     "new": """
    size_t cached_transit_events_count{0};"""},
    {"id": "c05-min-ts-max", "props": ["C05"], "file": BW,
     "desc": "lowest-timestamp selection picks the LAST buffer with an event when timestamps differ by less than 1us",
     "old": "if (te && (min_ts > te->timestamp))",
     "new": "if (te && ((min_ts / 1000) >= (te->timestamp / 1000)))"},
    # ---------------- C06 ----------------
    {"id": "c06-flush-without-sink-flush", "props": ["C06"], "file": BW,
     "desc": "Flush event notifies the caller without flushing the sinks",
     "old": """      _flush_and_run_active_sinks(false, std::chrono::milliseconds{0});

      // This is a flush event, so we capture the flush flag to notify the caller after processing.""",
     "new": """      // This is a flush event, so we capture the flush flag to notify the caller after processing."""},
    {"id": "c06-flush-respects-min-interval", "props": ["C06"], "file": BW,
     "desc": "Flush event flushes sinks only if sink_min_flush_interval elapsed",
     "old": """      _flush_and_run_active_sinks(false, std::chrono::milliseconds{0});

      // This is a flush event""",
     "new": """      _flush_and_run_active_sinks(false, _options.sink_min_flush_interval);

      // This is a flush event"""},
    # ---------------- C08 ----------------
    {"id": "c08-count-control-events", "props": ["C08"], "file": LG,
     "desc": "dropping path counts control events (flush etc.) as dropped messages too",
     "old": """        if ((macro_metadata->event() == MacroMetadata::Event::Log) ||
            (macro_metadata->event() == MacroMetadata::Event::LogWithRuntimeMetadata))
        {
          thread_context->increment_failure_counter();
        }
        return false;""",
     "new": """        thread_context->increment_failure_counter();
        return false;"""},
    {"id": "c08-lost-update-counter", "props": ["C08"], "file": TCM,
     "desc": "failure counter read and reset non-atomically AND reset only when below 2 (drops under-reported)",
     "old": "return _failure_counter.exchange(0, std::memory_order_relaxed);",
     "new": "size_t const v = _failure_counter.exchange(0, std::memory_order_relaxed); return v > 3 ? v - 1 : v;"},
    {"id": "c08-revert-f11", "props": ["C08"], "file": BW,
     "desc": "report before reclaim removed again (finding F11 comes back)",
     "old": """      _report_failure_counter(*found_invalid_and_empty_thread_context, _options.error_notifier);
""",
     "new": """"""},
    # ---------------- C09 ----------------
    {"id": "c09-revert-f1", "props": ["C09"], "file": BQ,
     "desc": "publish-when-drained removed again (finding F1 comes back)",
     "old": """        ((unpublished_bytes != 0) && (_reader_pos == _writer_pos_cache)))""",
     "new": """        false)"""},
    {"id": "c09-percent-50", "props": ["C09"], "file": BQ,
     "desc": "publish only when drained AND at least 2 bytes unpublished... (reader publish suppressed for 1..40 byte remainders)",
     "old": """        ((unpublished_bytes != 0) && (_reader_pos == _writer_pos_cache)))""",
     "new": """        ((unpublished_bytes > 40) && (_reader_pos == _writer_pos_cache)))"""},
    # ---------------- C10 ----------------
    {"id": "c10-revert-f2", "props": ["C10"], "file": BW,
     "desc": "catch-all in _populate_formatted_log_message removed again (finding F2 comes back)",
     "old": """    QUILL_CATCH_ALL()
    {
      // a user formatter may throw anything; treat it like any other formatting failure so that""",
     "new": """    QUILL_CATCH(std::bad_alloc const&)
    {
      // a user formatter may throw anything; treat it like any other formatting failure so that"""},
    {"id": "c10-flush-catch-breaks-loop", "props": ["C10"], "file": BW,
     "desc": "a throwing flush_sink aborts flushing of the remaining sinks (catch moved outside the loop)... emulated by clearing the cache",
     "old": """      QUILL_CATCH(std::exception const& e) { _options.error_notifier(e.what()); }
      QUILL_CATCH_ALL() { _options.error_notifier(std::string{"Caught unhandled exception."}); }
#endif

      if (run_periodic_tasks)""",
     "new": """      QUILL_CATCH(std::exception const& e) { _options.error_notifier(e.what()); break; }
      QUILL_CATCH_ALL() { _options.error_notifier(std::string{"Caught unhandled exception."}); }
#endif

      if (run_periodic_tasks)"""},
    {"id": "c10-error-text-not-cleared", "props": ["C10"], "file": BW,
     "desc": "partial output not cleared before the error text is appended",
     "old": """    QUILL_CATCH(std::exception const& e)
    {
      transit_event->formatted_msg->clear();
      std::string const error =""",
     "new": """    QUILL_CATCH(std::exception const& e)
    {
      std::string const error ="""},
    # ---------------- C16 ----------------
    {"id": "c16-dynamic-level-not-reset", "props": ["C16"], "file": BW,
     "desc": "dynamic_log_level of a reused transit event not reset for static statements",
     "old": "      transit_event->dynamic_log_level = LogLevel::None;\n    }\n\n    // commit this transit event",
     "new": "    }\n\n    // commit this transit event"},
    {"id": "c16-sink-threshold-le", "props": ["C16"], "file": SK,
     "desc": "sink level filter uses <= (statements exactly at the threshold rejected)",
     "old": "if (log_level < _log_level.load(std::memory_order_relaxed))",
     "new": "if (log_level <= _log_level.load(std::memory_order_relaxed))"},
    {"id": "c16-filters-any-of", "props": ["C16"], "file": SK,
     "desc": "filters combined with any_of instead of all_of",
     "old": "return std::all_of(_local_filters.begin(), _local_filters.end(),",
     "new": "return std::any_of(_local_filters.begin(), _local_filters.end(),"},
    {"id": "c16-override-formatter-shared", "props": ["C16"], "file": BW,
     "desc": "override formatted line leaks to the following sinks (log_to_write not reset per sink)",
     "old": """    for (auto& sink : transit_event.logger_base->sinks)
    {
      if (sink->apply_all_filters(transit_event.macro_metadata, transit_event.timestamp, thread_id,
                                  thread_name, transit_event.logger_base->logger_name,
                                  transit_event.log_level(), log_message, log_statement))
      {
        std::string_view log_to_write = log_statement;
""",
     "new": """    std::string_view log_to_write = log_statement;
    for (auto& sink : transit_event.logger_base->sinks)
    {
      if (sink->apply_all_filters(transit_event.macro_metadata, transit_event.timestamp, thread_id,
                                  thread_name, transit_event.logger_base->logger_name,
                                  transit_event.log_level(), log_message, log_statement))
      {
"""},
    {"id": "c16-should-log-gt", "props": ["C16"], "file": "quill/core/LoggerBase.h",
     "desc": "dynamic should_log_statement uses > instead of >=",
     "old": """  QUILL_NODISCARD QUILL_ATTRIBUTE_HOT bool should_log_statement(LogLevel log_statement_level) const noexcept
  {
    return log_statement_level >= get_log_level();""",
     "new": """  QUILL_NODISCARD QUILL_ATTRIBUTE_HOT bool should_log_statement(LogLevel log_statement_level) const noexcept
  {
    return log_statement_level > get_log_level();"""},
    # ---------------- C17 ----------------
    {"id": "c17-remove-without-queue-check", "props": ["C17"], "file": LM,
     "desc": "invalidated loggers removed without checking that the queues are empty",
     "old": "          if (!check_queues_empty())",
     "new": "          if (false && !check_queues_empty())"},
    {"id": "c17-cleanup-erases-live-sinks", "props": ["C17"], "file": SM,
     "desc": "cleanup_unused_sinks also forgets sinks that are only held by the user (use_count 1) - registry entry only",
     "old": "      if (it->sink_ptr.expired())",
     "new": "      if (it->sink_ptr.expired() || it->sink_ptr.use_count() == 1)"},
    {"id": "c17-get-logger-returns-invalid", "props": ["C17"], "file": LM,
     "desc": "get_logger returns invalidated loggers too",
     "old": "    return logger && logger->is_valid_logger() ? logger : nullptr;",
     "new": "    return logger;"},
    {"id": "c17-removal-flag-before-erase", "props": ["C17"], "file": BW,
     "desc": "blocking removal notified although the logger was not removed (flag set for every pending request)",
     "old": """    if (!removed_loggers.empty())
    {""",
     "new": """    for (auto& kv : _logger_removal_flags) { if (removed_loggers.empty() && kv.second) { kv.second->store(true); } }
    if (!removed_loggers.empty())
    {"""},
    # ---------------- C18 ----------------
    {"id": "c18-iterate-from-zero", "props": ["C18"], "file": BTS,
     "desc": "process() iterates from 0 instead of _index",
     "old": "    uint32_t index = _index;",
     "new": "    uint32_t index = 0;"},
    {"id": "c18-wrap-at-capacity", "props": ["C18"], "file": BTS,
     "desc": "store index wraps one slot late",
     "old": "      if (_index < _capacity - 1)",
     "new": "      if (_index < _capacity)"},
    {"id": "c18-no-clear", "props": ["C18"], "file": BTS,
     "desc": "stored messages not forgotten after a flush",
     "old": """    _stored_events.clear();
    _index = 0;
  }""",
     "new": """    _index = 0;
  }"""},
    {"id": "c18-flush-level-gt", "props": ["C18"], "file": BW,
     "desc": "backtrace flush level compared with > instead of >=",
     "old": "        if (QUILL_UNLIKELY(transit_event.log_level() >=\n                           transit_event.logger_base->backtrace_flush_level.load(std::memory_order_relaxed)))",
     "new": "        if (QUILL_UNLIKELY(transit_event.log_level() >\n                           transit_event.logger_base->backtrace_flush_level.load(std::memory_order_relaxed)))"},
    {"id": "c18-revert-f3", "props": ["C18"], "file": BTS,
     "desc": "index reset removed again (finding F3 comes back)",
     "old": """    _stored_events.clear();
    _index = 0;""",
     "new": """    _stored_events.clear();"""},
    # ---------------- C20 ----------------
    {"id": "c20-revert-f9", "props": ["C20"], "file": TCM,
     "desc": "8-bit counter again (finding F9 comes back)",
     "old": "std::atomic<uint32_t> _invalid_thread_context_count{0};",
     "new": "std::atomic<uint8_t> _invalid_thread_context_count{0};"},
    {"id": "c20-counter-decrement-twice", "props": ["C20"], "file": TCM,
     "desc": "invalid-context counter decremented by two per removal",
     "old": "    _invalid_thread_context_count.fetch_sub(1, std::memory_order_relaxed);",
     "new": "    _invalid_thread_context_count.fetch_sub(_thread_contexts.size() > 2 ? 2 : 1, std::memory_order_relaxed);"},
    {"id": "c20-shrink-threshold", "props": ["C20"], "file": UQ,
     "desc": "shrink ignored unless target <= capacity/4",
     "old": "if (capacity > (_producer->bounded_queue.capacity() >> 1))",
     "new": "if (capacity > (_producer->bounded_queue.capacity() >> 2))"},
]

MUTANTS += [
    {"id": "c13-revert-f6", "props": ["C13"], "file": "quill/backend/StringFromTime.h",
     "desc": "%c rewrite removed again (finding F6 comes back)",
     "old": '    _replace_all(_timestamp_format, "%c", "%a %b %e %H:%M:%S %Y");\n', "new": ""},
    {"id": "c13-revert-f14", "props": ["C13"], "file": "quill/backend/TimestampFormatter.h",
     "desc": "duplicate fractional specifier accepted again (finding F14 comes back)",
     "old": "if (_time_format.find(specifier_name[i], specifier_begin + 1) != std::string::npos)",
     "new": "if (false && _time_format.find(specifier_name[i], specifier_begin + 1) != std::string::npos)"},
    {"id": "c11-revert-f15", "props": ["C11"], "file": "quill/std/Map.h",
     "desc": "map elements encoded through Codec<pair<Key,T>> again (finding F15 comes back)",
     "old": """        total_size += Codec<Key>::compute_encoded_size(conditional_arg_size_cache, elem.first);
        total_size += Codec<T>::compute_encoded_size(conditional_arg_size_cache, elem.second);""",
     "new": """        total_size += Codec<std::pair<Key, T>>::compute_encoded_size(conditional_arg_size_cache, elem);"""},
    {"id": "c13-hours-ge-12", "props": ["C13"], "file": "quill/backend/StringFromTime.h",
     "desc": "%I: hours > 12 -> >= 12 (noon hour rendered 00)",
     "old": """        fmtquill::format_to(&_pre_formatted_ts[index.first], "{:02}",
                            (hours == 0 ? 12 : (hours > 12 ? hours - 12 : hours)));""",
     "new": """        fmtquill::format_to(&_pre_formatted_ts[index.first], "{:02}",
                            (hours == 0 ? 12 : (hours >= 12 ? hours - 12 : hours)));"""},
    {"id": "c13-quarter-hour-3600", "props": ["C13"], "file": "quill/backend/StringFromTime.h",
     "desc": "local-time recalculation every hour instead of every minute",
     "old": "    return ((timestamp / 60) * 60) + 60;",
     "new": "    return ((timestamp / 3600) * 3600) + 3600;"},
    {"id": "c13-revert-f7", "props": ["C13"], "file": "quill/backend/StringFromTime.h",
     "desc": "local-time recalculation every quarter hour again (finding F7 comes back)",
     "old": "_next_recalculation_timestamp = _next_minute_timestamp(timestamp);",
     "new": "_next_recalculation_timestamp = _next_quarter_hour_timestamp(timestamp);"},
    {"id": "c13-fallback-updates-cache", "props": ["C13"], "file": "quill/backend/StringFromTime.h",
     "desc": "backward timestamp (fallback path) also moves the cached timestamp",
     "old": "      _fallback_formatted = _safe_strftime(_timestamp_format.data(), timestamp, _time_zone).data();\n",
     "new": "      _fallback_formatted = _safe_strftime(_timestamp_format.data(), timestamp, _time_zone).data();\n      _cached_timestamp = timestamp;\n"},
    # ---------------- reverts of the later fixes (F4, F17) ----------------
    {"id": "c19-revert-f4-named-scanner", "props": ["C19"], "file": "quill/backend/BackendWorker.h",
     "desc": "named-arg scanner treats '}}' after a placeholder's closing brace as escaping it again (finding F4, named half)",
     "old": """      while (close_bracket_pos != std::string::npos)
      {
        // construct a fmt string excluding the characters inside the brackets { }""",
     "new": """      while (close_bracket_pos != std::string::npos)
      {
        if (size_t const close_bracket_2_pos = fmt_template.find_first_of('}', close_bracket_pos + 1);
            close_bracket_2_pos != std::string::npos)
        {
          if ((close_bracket_2_pos - 1) == close_bracket_pos)
          {
            close_bracket_pos = fmt_template.find_first_of('}', close_bracket_2_pos + 1);
            continue;
          }
        }

        // construct a fmt string excluding the characters inside the brackets { }"""},
    {"id": "c04-revert-f4-contains-named-args", "props": ["C04"], "file": "quill/core/MacroMetadata.h",
     "desc": "_contains_named_args treats '}}' after a field as escaped and skips the character after every field (finding F4, positional half)",
     "old": """            ++pos; // consume }
            break;""",
     "new": """            ++pos; // consume }
            if (pos >= fmt.length())
            {
              break;
            }

            if (fmt[pos] == '}')
            {
              ++pos;
              ++char_cnt;
              continue;
            }
            break;""",
     "old2": """        // pos is already at the character after the field, do not skip it
        continue;
""",
     "new2": ""},
    {"id": "c19-revert-f17", "props": ["C19"], "file": "quill/sinks/JsonSink.h",
     "desc": "JsonSink appends named-arg values raw again (finding F17: a new line in a value splits the object)",
     "old": """      if (_json_message[i] == '\\n')
      {
        _json_message[i] = ' ';""",
     "new": """      if (_json_message[i] == '\\n' && false)
      {
        _json_message[i] = ' ';"""},
    # ---------------- data races (decided by the ThreadSanitizer flavour of rtstress) ----------------
    {"id": "c17-get-logger-without-lock", "props": ["C17"], "file": "quill/core/LoggerManager.h",
     "desc": "LoggerManager::get_logger() reads the registry without the lock",
     "old": """    LockGuard const lock{_spinlock};
    LoggerBase* logger = _find_logger(logger_name);""",
     "new": """    LoggerBase* logger = _find_logger(logger_name);"""},
    {"id": "c20-for-each-context-without-lock", "props": ["C20", "C06"], "file": "quill/core/ThreadContextManager.h",
     "desc": "for_each_thread_context() iterates the context vector without the lock (races with thread registration)",
     "old": """  void for_each_thread_context(TCallback cb)
  {
    LockGuard const lock{_spinlock};
""",
     "new": """  void for_each_thread_context(TCallback cb)
  {
"""},
    {"id": "c17-spinlock-acquire-relaxed", "props": ["C17", "C20"], "file": "quill/core/Spinlock.h",
     "desc": "Spinlock::lock() takes the flag with a relaxed exchange (no acquire: the protected data is read without happens-before)",
     "old": "while (_flag.exchange(State::Locked, std::memory_order_acquire) == State::Locked);",
     "new": "while (_flag.exchange(State::Locked, std::memory_order_relaxed) == State::Locked);"},
    # ---------------- formatter sharing between loggers ----------------
    {"id": "c12-options-eq-ignores-timezone", "props": ["C12"], "file": "quill/core/PatternFormatterOptions.h",
     "desc": "PatternFormatterOptions::operator== ignores timestamp_timezone (a second logger adopts the first one's formatter)",
     "old": "      timestamp_timezone == other.timestamp_timezone &&\n",
     "new": ""},
    {"id": "c12-options-eq-compares-pattern-length", "props": ["C12", "C03", "C17"], "file": "quill/core/PatternFormatterOptions.h",
     "desc": "operator== compares only the length of format_pattern",
     "old": "return format_pattern == other.format_pattern &&",
     "new": "return format_pattern.size() == other.format_pattern.size() &&"},
    {"id": "c17-formatter-adopted-without-comparison", "props": ["C17", "C03"], "file": "quill/backend/BackendWorker.h",
     "desc": "a new logger adopts the first existing formatter without comparing the options",
     "old": """          if (logger->pattern_formatter &&
              (logger->pattern_formatter->get_options() == transit_event.logger_base->pattern_formatter_options))""",
     "new": """          if (logger->pattern_formatter)"""},
    {"id": "c17-source-logger-copy-drops-pattern", "props": ["C17"], "file": "quill/core/LoggerManager.h",
     "desc": "create_or_get_logger(name, source_logger) copies the sinks but not the pattern options",
     "old": "return create_or_get_logger<TLogger>(logger_name, source_logger->sinks, source_logger->pattern_formatter_options,",
     "new": "return create_or_get_logger<TLogger>(logger_name, source_logger->sinks, PatternFormatterOptions{},"},
    {"id": "c06-immediate-flush-skipped", "props": ["C06"], "file": "quill/Logger.h",
     "desc": "log_statement<immediate_flush> returns without flushing",
     "old": """    if constexpr (immediate_flush)
    {
      this->flush_log();
    }""",
     "new": """    if constexpr (immediate_flush && false)
    {
      this->flush_log();
    }"""},
    {"id": "c05-revert-f21", "props": ["C05", "C02"], "file": "quill/core/UnboundedSPSCQueue.h",
     "desc": "prepare_read follows only one link of a chain of re-allocated buffers again (finding F21 comes back)",
     "old": """      while (read_result.allocation && !read_result.read_pos &&
             (next_node = _consumer->next.load(std::memory_order_acquire)))""",
     "new": """      while (false && read_result.allocation && !read_result.read_pos &&
             (next_node = _consumer->next.load(std::memory_order_acquire)))"""},
    {"id": "c10-revert-f22", "props": ["C10"], "file": "quill/backend/BackendWorker.h",
     "desc": "a sink exception escapes the backtrace replay callback again (finding F22 comes back)",
     "old": """        QUILL_TRY { _dispatch_transit_event_to_sinks(te, thread_id, thread_name); }
#if !defined(QUILL_NO_EXCEPTIONS)
        QUILL_CATCH(std::exception const& e) { _options.error_notifier(e.what()); }
        QUILL_CATCH_ALL()
        {
          _options.error_notifier(std::string{"Caught unhandled exception."});
        } // clang-format on
#endif""",
     "new": """        _dispatch_transit_event_to_sinks(te, thread_id, thread_name);"""},
    {"id": "c08-revert-f23", "props": ["C08"], "file": "quill/Logger.h",
     "desc": "dropped LOG_RUNTIME_METADATA statements are not counted again (finding F23 comes back)",
     "old": """        if ((macro_metadata->event() == MacroMetadata::Event::Log) ||
            (macro_metadata->event() == MacroMetadata::Event::LogWithRuntimeMetadata))
        {
          thread_context->increment_failure_counter();
        }
        return false;""",
     "new": """        if (macro_metadata->event() == MacroMetadata::Event::Log)
        {
          thread_context->increment_failure_counter();
        }
        return false;"""},
    {"id": "c12-revert-f16", "props": ["C12"], "file": "quill/backend/BackendWorker.h",
     "desc": "runtime metadata is not applied on the named-arguments branch again (finding F16 comes back)",
     "old": """    if (transit_event->macro_metadata->event() != MacroMetadata::Event::LogWithRuntimeMetadata)
    {
      return;
    }

    _apply_runtime_metadata(transit_event);""",
     "new": """    if (true || transit_event->macro_metadata->event() != MacroMetadata::Event::LogWithRuntimeMetadata)
    {
      return;
    }

    _apply_runtime_metadata(transit_event);"""},
    # ---------------- C15: the F8 fix (time rotation stays on its schedule) ----------------
    {"id": "c15-revert-f8", "props": ["C15"], "file": "quill/sinks/RotatingSink.h",
     "desc": "the F8 fix reverted for minutes/hours: next rotation point = triggering record + interval (the schedule drifts)",
     "old": "_next_rotation_time = _calculate_rotation_tp(_next_rotation_time, record_timestamp_ns, _config);",
     "new": "_next_rotation_time = _calculate_rotation_tp(record_timestamp_ns, record_timestamp_ns, _config);"},
    {"id": "c15-daily-plus-24h", "props": ["C15"], "file": "quill/sinks/RotatingSink.h",
     "desc": "the F8 fix reverted for the daily rotation: triggering record + 24 h",
     "old": """      // the configured time of day, on the day of the record or on the next one
      return _calculate_initial_rotation_tp(record_timestamp_ns, config);""",
     "new": """      return record_timestamp_ns + static_cast<uint64_t>(std::chrono::nanoseconds{std::chrono::hours{24}}.count());"""},
    {"id": "c15-daily-keeps-isdst", "props": ["C15"], "file": "quill/sinks/RotatingSink.h",
     "desc": "daily time of day converted with the daylight-saving flag of the current instant (one hour off across a clock change)",
     "old": """      // daylight saving time can be different at that time of day
      date.tm_isdst = -1;
    }""",
     "new": """    }"""},
    {"id": "c15-one-interval-only", "props": ["C15"], "file": "quill/sinks/RotatingSink.h",
     "desc": "next point = previous scheduled point + ONE interval even when the record is several intervals late (burst of rotations after a gap)",
     "old": "return scheduled_rotation_tp_ns + ((elapsed_intervals + 1) * interval_ns);",
     "new": "return scheduled_rotation_tp_ns + interval_ns;"},
    # ---------------- third session: file-backed sinks (C06, fileflush) and CsvWriter (C17, csvw) ----------------
    {"id": "c06-suppressed-statement-clears-dirty-flag", "props": ["C06"], "file": "quill/sinks/StreamSink.h",
     "desc": "a statement suppressed by the before_write hook clears the sink's dirty flag (seeded change C06-5)",
     "old": """      safe_fwrite(user_log_statement.data(), sizeof(char), user_log_statement.size(), _file);
    }""",
     "new": """      safe_fwrite(user_log_statement.data(), sizeof(char), user_log_statement.size(), _file);
      _write_occurred = !user_log_statement.empty();
      return;
    }"""},
    {"id": "c06-write-never-marks-dirty", "props": ["C06"], "file": "quill/sinks/StreamSink.h",
     "desc": "StreamSink::write_log never sets the dirty flag: flush_sink() always returns early",
     "old": """    _write_occurred = true;
  }""",
     "new": """  }"""},
    {"id": "c17-csv-destructor-nonblocking", "props": ["C17"], "file": "quill/CsvWriter.h",
     "desc": "~CsvWriter removes its logger without waiting (remove_logger instead of remove_logger_blocking)",
     "old": "~CsvWriter() { frontend_t::remove_logger_blocking(_logger); }",
     "new": "~CsvWriter() { frontend_t::remove_logger(_logger); }"},
    {"id": "c17-csv-append-header-twice", "props": ["C17"], "file": "quill/CsvWriter.h",
     "desc": "CsvWriter in append mode writes the header although the file exists",
     "old": "    if ((open_mode == 'a') && fs::exists(filename))",
     "new": "    if ((open_mode == 'a') && !fs::exists(filename))"},
    {"id": "c09-throw-above-configured-capacity", "props": ["C09"], "file": "quill/Logger.h",
     "desc": "a blocked statement larger than the CONFIGURED bounded capacity throws instead of waiting (seeded change C09-5, condensed)",
     "old": """    if constexpr ((frontend_options_t::queue_type == QueueType::BoundedDropping) ||
                  (frontend_options_t::queue_type == QueueType::UnboundedDropping))""",
     "new": """    if constexpr (frontend_options_t::queue_type == QueueType::BoundedBlocking)
    {
      if ((write_buffer == nullptr) && (total_size > frontend_options_t::initial_queue_capacity)) { QUILL_THROW(QuillError{"statement larger than the queue"}); }
    }
    if constexpr ((frontend_options_t::queue_type == QueueType::BoundedDropping) ||
                  (frontend_options_t::queue_type == QueueType::UnboundedDropping))"""},
]
