#!/usr/bin/env python3
"""Adds the human summary fields (what the change is, what it needs in order to manifest) to seeded/<id>/meta.json.
The texts are condensed from each seed's NOTES.md (written by the sub-agent that produced the change)."""
import json
import os

ROOT = os.path.dirname(os.path.dirname(os.path.abspath(__file__)))
INFO = {
    "C01": ("prepare_write() compares absolute positions instead of the wrap-safe difference", "the writer position crosses the integer_type wrap while the queue is full (8/16/32-bit counters)"),
    "C02": ("_max_capacity(next_power_of_two(max_capacity)) in the constructor", "a non-power-of-two maximum and a producer that reaches it, or a record between max and the next power of two"),
    "C03": ("reclaim condition of an exited thread's context loses '&& transit buffer empty'", "thread W logs after thread F issued flush_log() and exits; the post-Flush clean-up runs while W's events are cached"),
    "C04": ("size cache cleared at the end of encode() instead of before sizing", "dropping queue: a dropped statement with size-cached arguments followed by an accepted one with a different cached size"),
    "C05": ("ts_now read lazily at the first non-empty queue of a pass", "queue A visited empty, then A and B log, the backend reaches B more than the grace period later, all in one pass"),
    "C06": ("_new_thread_context_flag stored before the context is pushed", "backend cache refresh between the flag store and the push of a first-time thread; no later registration"),
    "C07": ("_exit() drain loop ends when one populate pass reads nothing", "statements younger than the grace period when stop/exit arrives and no flush in between (deterministic with a long grace period)"),
    "C08": ("get_and_reset_failure_counter(): load + store(0) instead of exchange(0)", "the producer drops another statement between the backend's load and its store (real concurrency)"),
    "C09": ("cap check in _handle_full_queue: > becomes >=", "unbounded queue and a statement larger than half of the maximum capacity"),
    "C10": ("try/catch around the whole flush loop instead of per sink", "a flush_sink() that throws and is not the last sink in cache order"),
    "C11": ("second space check of prepare_write: < n becomes <= n", "a statement that exactly fills the free space after the reader position moved (exact fit refused, queue grows on the caller)"),
    "C12": ("_formatted_named_args_buffer.clear() moved inside if (named_args)", "pattern with %(named_args); a statement with named args, then one whose named_args pointer is null, through the same formatter"),
    "C13": ("cached indexes of the time fields computed only once", "a variable-width conversion (%A %B %Z) before a tracked time field and a recalculation that changes its width, then another second"),
    "C14": ("_file_size initialised from disk only inside _clean_and_recover_files()", "DateAndTime naming, append mode, restart over a non-empty live file, statements smaller than the limit"),
    "C15": ("next rotation point advanced from the previous scheduled point", "an idle gap of more than one period followed by several statements inside one period"),
    "C16": ("TransitEvent move assignment forgets dynamic_log_level", "transit buffer expansion (or backtrace ring wrap) with dynamic-level events inside"),
    "C17": ("check_queues_empty() hoisted out of the per-logger loop", "a log + remove_logger of logger B between the hoisted check and the loop reaching B while another removal is pending"),
    "C18": ("store() compares with the vector's capacity() instead of _capacity", "re-initialisation with a smaller capacity, then more backtrace statements than the new capacity"),
    "C19": ("arg_name/arg_syntax hoisted out of the placeholder loop", "a named placeholder with a spec followed later by one without"),
    "C20": ("UnboundedSPSCQueue::empty() treats 'successor empty' as empty", "a chain of three buffers (two re-allocations with nothing in between), then a statement, then thread exit within one backend pass"),
    "C05-2": ("has_pending_events_for_caching... answers for the first context with an empty buffer only", "an idle context registered before thread A, A's queue read partially (hard limit), batch mode, a younger statement of thread B cached"),
    "C06-2": ("Flush events exempt from the grace-period hold-back", "another thread's completed statement still younger than the grace period when the flush is read"),
    "C08-2": ("size cache cleared at the end of encode() (same mechanism as seed C04)", "dropping queue: refused statement with cached sizes, then an accepted one with a different cached size"),
    "C01-2": ("empty() reloads the writer position relaxed but still stores it into the shared reader-side cache; prepare_read() inlines its own check", "consumer caught up, producer commits, the consumer's next look is empty() and then prepare_read(): payload read without an acquire (C++11 model; invisible on x86)"),
    "C02-2": ("_read_next_queue() no longer probes the old buffer once more before switching", "record committed to the old buffer and a switch published between the consumer's empty probe and its load of next"),
    "C03-2": ("_exit() drain loop breaks when a populate pass returns 0", "backend exit path entered while every queued record is younger than the grace period (nothing cached)"),
    "C09-2": ("commit_read publishes the reader position only when a 'drained' flag says so", "blocking queue, a statement that needs bytes the consumer has read but not published"),
    "C10-2": ("named_args->clear() moved from the event fetch into _process_transit_event", "a named-arg statement whose processing throws (e.g. backtrace level without init_backtrace), then another statement reusing the same transit slot"),
    "C11-2": ("Codec<std::pair>::compute_encoded_size binds the pair by value", "a std::pair argument (direct or nested) with a heap-owning member, e.g. a 16-character std::string"),
    "C12-2": ("PatternFormatterOptions::operator== ignores add_metadata_to_multi_line_logs", "two loggers whose options differ only in that flag; the one dispatched second adopts the first's formatter; a multi-line message without named args"),
    "C16-2": ("override-formatted line of one sink leaks to the following sinks", "a sink with an override pattern followed by a sink without one on the same logger"),
    "C18-2": ("backtrace flush decision uses macro_metadata->log_level() instead of the event's level", "a dynamic-level statement below the flush level on a logger with stored backtrace statements"),
    "C20-2": ("context cache rebuild skips contexts that are already invalid and empty", "thread A exits and is fully drained in a non-idle pass, a new thread registers before the next idle pass: A is never in the cache again and never reclaimed"),
    "C04-2": ("decode_and_store_args() clears and fills the shared argument store only when the statement has arguments", "a zero-argument statement decoded right after a statement with arguments: literal with a byte the printable check rejects (escaped although no string argument), or a placeholder without argument (previous statement's argument printed)"),
    "C07-2": ("UnboundedSPSCQueue::empty() no longer looks at the successor buffer", "producer has switched to a new buffer (growth with exact fill, or shrink), the old one is drained, then stop / exit / thread clean-up decide on empty() alone"),
    "C13-2": ("backward timestamp rebuilds the cache at the earlier instant but keeps the old next-recalculation point", "instant at/after a recalculation point B, then one before B, then one at/after B again (noon, midnight, DST switch)"),
    "C14-2": ("backup-limit step moved before the rename loop; an indexed oldest entry is only forgotten, not removed", "Date/DateAndTime naming, finite max_backup_files >= 2 with overwrite, two rotated files sharing a suffix, then the suffix changes and that series becomes the oldest"),
    "C15-2": ("_rotate_files() re-arms the time-rotation point (also after a size rotation)", "sink with size AND time rotation: a size rotation inside a period, then a statement stamped in [scheduled point, size-rotation time + period) that still fits"),
    "C19-2": ("named-args clean-up of the reused transit slot moved behind the dispatch (skipped for backtrace statements and throwing sinks); populate uses emplace_back", "a named-argument LOG_BACKTRACE (or a named statement whose sink throws), then the statement that reuses the same transit slot"),
    "C03-3": ("register_thread_context() raises the new-context flag before taking the registry lock (LockGuard tidy-up)", "backend consumes the flag and rebuilds its list while the new thread waits for the lock, and no later thread registers: the thread is never polled"),
    "C04-3": ("sanitize_non_printable_chars() asks the configured predicate only for characters outside ' '..'~' in its pre-scan", "a user check_printable_char stricter than the default for a plain ASCII character, a string argument containing it, no other rejected character in the message"),
    "C05-3": ("after the lazy creation of the RdtscClock the populate function returns false for that queue", "TSC (default) clock loggers; the first TSC statement ever decoded while another thread's later statement is already queued in the same pass"),
    "C06-3": ("sink collection loop in _flush_and_run_active_sinks uses break instead of continue for an already cached sink", "two loggers; the second one's sink list has a sink shared with the first BEFORE a sink only it has: that sink is never flushed"),
    "C10-3": ("per-call-site cache of formatting errors (MacroMetadata* -> error text)", "a call site whose statement failed once with a std::exception (value dependent), then a healthy statement through the same call site"),
    "C12-3": ("log_to_write declared once outside the per-sink loop in _write_log_statement", "one logger with an override-pattern sink placed BEFORE a sink without override"),
    "C16-3": ("add_filter keeps the filters sorted by name; apply_all_filters only appends the tail of the global list", "a filter added after the backend loaded the list, with a name sorting before an already loaded one"),
    "C17-3": ("create_or_get_logger constructs the Logger outside the lock and does not re-check the name", "two threads create-or-get the same unregistered name at the same moment"),
    "C18-3": ("init_backtrace stores the flush level only when it is not None", "re-initialisation from a level to None, stored backtrace statements, then an ordinary statement at/above the old level"),
    "C19-3": ("JsonSink replaces new lines in the object only when the text message contains one", "a value ending in a new line at the end of the message (stripped from the message), or a surplus argument with a new line"),
    "C07-3": ("reclaim lambda of _cleanup_invalidated_thread_contexts rewritten as ?: (precedence): unbounded queues lose the 'no cached transit events' condition", "a flush_log() in flight (direct or from the signal handler), a thread that logs right after it was issued and exits, the backend caching that thread's statements before it processes the Flush event"),
    "C08-3": ("failure counter bumped for every refused event except Flush / LoggerRemovalRequest", "BoundedDropping queue full when init_backtrace() / flush_backtrace() is called: every retry of the control request is counted as a dropped message"),
    "C09-3": ("sticky _max_capacity_reached flag in UnboundedSPSCQueue::_handle_full_queue, not reset by shrink()", "an oversized statement refused while the node is small, or growth to the maximum followed by shrink(); afterwards a statement larger than the current node is refused for ever"),
    "C14-3": ("recovery scan wrapped in one try/catch, per-entry stoul guards removed", "append mode, Index naming, a sibling <stem>.<non-number><ext> (or a stem with a dot) met before a rotated file in directory order: recovery stops, the next rotation clobbers unrecovered files"),
    "C20-3": ("idle pass passes 'all queues empty' into the reclaim scan, which then skips the per-context check for the first removal", "a known thread logs once more and exits between the backend's idle emptiness check and the reclaim scan (yield point Y5)"),
    "C01-3": ("prepare_write() calls commit_write() before returning nullptr when the record still does not fit", "a record finished but not yet committed, then a failing reservation on a really full queue: the uncommitted record becomes visible"),
    "C02-3": ("_handle_full_queue publishes next before commit_write() on the old buffer (allocation moved first)", "consumer runs between the producer's next.store and its late commit: it retires the old node, the commit then touches the deleted node (batched commits: records lost)"),
    "C11-3": ("FrontendImpl<T>::preallocate() fetches the thread context of the DEFAULT FrontendOptions", "a user-defined FrontendOptions type and preallocate() before the first statement: the first log call builds the real context (allocates) on the caller"),
    "C13-3": ("PatternFormatterOptions::operator== ignores timestamp_timezone", "two loggers differing only in GmtTime/LocalTime, %(time) in the pattern, a local zone different from UTC"),
    "C15-3": ("initial rotation point of hourly/minutely rotation computed on the UTC grid (gmtime/timegm) for every zone", "hourly rotation, Timezone::LocalTime, a zone whose UTC offset is not a whole number of hours"),
    "C03-4": ("UnboundedSPSCQueue::empty() no longer looks at the successor buffer (same change as C07-2, found independently)", "queue with more than one buffer, a read pass that stops exactly on the buffer boundary (exact fill, hard limit, or drained buffer before a shrink), then a decision based on empty(): reclaim of an exited thread, exit drain, ManualBackendWorker::poll()"),
    "C05-4": ("UnboundedSPSCQueue::empty() no longer looks at the successor buffer (same change as C07-2 / C03-4)", "grown or shrunk queue whose old buffer is drained exactly at the end of a pass, batch mode (cached events >= soft limit), another thread with a newer cached statement"),
    "C06-4": ("ts_now (grace-period cut-off) refreshed after every queue of a pass instead of once per pass", "thread A logs, thread B flushes; A's queue is read before B's and the backend needs longer between the two reads than the gap between the two calls; nothing older cached"),
    "C10-4": ("BacktraceStorage::process() declared noexcept", "a sink whose write_log throws for a replayed backtrace statement: std::terminate (on the tree before fix F22; the F22 fix catches the exception inside the callback, so the change no longer manifests on the current tree)"),
    "C12-4": ("TransitEvent move assignment forgets dynamic_log_level (same change as seed C16, found independently for C12)", "dynamic-level or runtime-metadata statement waiting in the transit buffer when it grows; pattern with %(log_level) / %(log_level_short_code)"),
    "C16-4": ("apply_all_filters reloads the backend's filter copy only when try_lock() succeeds", "a statement rejected by a just-attached filter is evaluated while another thread is inside add_filter() on the same sink"),
    "C04-4": ("_apply_runtime_metadata() searches the separator with find_first_of (any ONE of the three bytes)", "LOG_RUNTIME_METADATA statement without named args whose formatted text contains a byte 0x01, 0x02 or 0x03"),
    "C07-4": ("SignalHandlerContext::get_logger() loses the fallback to the first valid logger when the configured name does not resolve", "SignalHandlerOptions::logger set to a name that is not a valid logger when a handled signal arrives: no flush, no exit/re-raise"),
    "C08-4": ("context cache rebuild skips contexts that are already invalid and empty (same change as C20-2, found independently for C08)", "a thread whose statements were all refused (or already drained) exits before a cache rebuild: its drop count is never reported"),
    "C09-4": ("hard-limit test moved to the top of the read loop with 'return' instead of 'break': commit_read() skipped", "small transit_events_hard_limit reached exactly by the record that drains the queue, then a statement close to the capacity"),
    "C14-4": ("_file_size accounting moved into _size_rotation(), which is not called for the statement that triggered a time rotation", "sink with size AND time rotation: the first statement of a file opened by a time rotation is not counted"),
    "C17-4": ("_cleanup_invalidated_loggers wakes every remove_logger_blocking waiter whose name get_logger() no longer finds", "two removals pending in one pass, the later (blocking) one deferred by a statement enqueued between the per-logger queue checks"),
    "C18-4": ("backtrace capacity handed to the backend through an atomic on the logger instead of inside the InitBacktrace message", "a second init_backtrace() with another capacity before the backend processed the first InitBacktrace event"),
    "C19-4": ("joined named-arg values kept in a member buffer that is cleared after use, not before", "a named statement whose SECOND or later value fails to format, then the next named statement (any logger / thread)"),
    "C20-4": ("counter of invalid thread contexts replaced by a flag that every removal clears", "a reclaim scan that removes one context and leaves another exited thread's context behind (backlog at a flush-time scan, or exit during the scan)"),
    "C01-4": ("ring mask computed from the REQUESTED capacity instead of the rounded-up one", "a capacity request that is not a power of two and a producer further ahead of the consumer than the lowest dropped mask bit"),
    "C02-4": ("UnboundedSPSCQueue::empty() looks only one buffer ahead (true when the direct successor is unused)", "chain drained -> never written -> holds records (two re-allocations in a row), emptiness asked before the next read pass (stop, exit, ManualBackendWorker::poll)"),
    "C13-4": ("incremental update skips rewriting hh:mm when the minute of the day equals a remembered one that cache rebuilds do not reset", "GMT mode: incremental update at minute X, rebuild(s) at another hh:mm, then the first incremental update in minute X again"),
    "C15-4": ("_file_size = 0 moved from _rotate_files() into _size_rotation(): a time rotation no longer resets the byte count", "size AND time rotation: the file opened by a time rotation inherits the rotated file's size and is size-rotated early"),
    "C11-4": ("hard-limit test with an early 'return' in the backend read loop skips commit_read() (same change as C09-4, found independently for C11)", "small transit_events_hard_limit, a burst that is a multiple of it drained by the backend, then a statement that needs the unpublished bytes: the queue grows on the caller"),
    "C17-2": ("SinkManager::_insert_sink uses upper_bound", "a sink expires without a logger removal, the same sink name is created again and looked up before any logger is removed"),
}
for name, (change, needs) in INFO.items():
    p = os.path.join(ROOT, "seeded", name, "meta.json")
    if not os.path.exists(p):
        continue
    m = json.load(open(p))
    m["change"] = change
    m["needs_to_manifest"] = needs
    m["breaks_property"] = m.get("property")
    json.dump(m, open(p, "w"), indent=1)
    print("updated", name)
