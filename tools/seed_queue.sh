#!/bin/bash
# sequentially confirm seeds whose ids (plus optional extra arguments) are appended to /tmp/seed/queue.txt
touch /tmp/seed/queue.txt
tail -n +1 -F /tmp/seed/queue.txt | while read id rest; do
  [ -z "$id" ] && continue
  cd /verif && python3 tools/seed_confirm.py $id $rest > /tmp/seed/$id.confirm.log 2>&1
  echo "$id done $(date +%H:%M:%S)" >> /tmp/seed/queue.done
done
