#!/usr/bin/env python3
"""Which lines of /repo/include does the generated search actually execute?

Builds the harnesses with clang source-based coverage instead of the sanitizers (VERIF_COV=1 makes ./check use a separate
build cache and output root under /dev/shm/verif-cov, never /verif's evidence), runs the registered quick jobs of the
given properties (default: all), merges the raw profiles (forked cases write theirs before _exit) and prints, per file of
the library, the functions and line ranges no case reached. This is a generator-quality measurement (a region nothing
reaches cannot have its changes detected), not a verdict; nothing here is evidence.

usage: tools/coverage.py [--keep] [--report-only] [ID ...]
Not measured: the exec'd children of crashkid that die by a signal (no profile is written), libFuzzer and TSan-only jobs."""
import json
import os
import re
import subprocess
import sys

ROOT = os.path.dirname(os.path.dirname(os.path.abspath(__file__)))
COVDIR = "/dev/shm/verif-cov"


def sh(cmd, **kw):
    return subprocess.run(cmd, shell=True, stdout=subprocess.PIPE, stderr=subprocess.STDOUT, text=True, **kw)


def main():
    args = sys.argv[1:]
    keep = "--keep" in args
    report_only = "--report-only" in args
    ids = [a for a in args if not a.startswith("--")]
    sys.path.insert(0, os.path.join(ROOT, "engine"))
    import checkconf
    if not ids:
        ids = sorted(checkconf.PROPERTIES)
    env = dict(os.environ, VERIF_COV="1")
    if not report_only:
        for pid in ids:
            r = subprocess.run([os.path.join(ROOT, "check"), "run", pid, "--tier", "quick"], env=env, stdout=subprocess.PIPE,
                               stderr=subprocess.STDOUT, text=True)
            tail = [ln for ln in r.stdout.splitlines() if ln.startswith(("[", "VIOLATION", "BUILD"))][-2:]
            print(pid, "exit", r.returncode, " | ".join(tail)[:300], flush=True)
    prof = os.path.join(COVDIR, "prof")
    merged = os.path.join(COVDIR, "merged.profdata")
    r = sh(f"llvm-profdata merge -sparse {prof}/*.profraw -o {merged}")
    if r.returncode != 0:
        print(r.stdout[-2000:])
        return 1
    bins = [os.path.join(COVDIR, "bin", f) for f in sorted(os.listdir(os.path.join(COVDIR, "bin"))) if not f.endswith(".tmp")]
    objs = " ".join(f"-object {b}" for b in bins[1:])
    r = sh(f"llvm-cov export -format=text -instr-profile={merged} {bins[0]} {objs} /repo/include/quill 2>/dev/null")
    data = json.loads(r.stdout)
    out = {}
    for f in data["data"][0]["files"]:
        name = f["filename"]
        if "/bundled/" in name:
            continue
        # segments: [line, col, count, hasCount, isRegionEntry, isGap]
        uncovered = set()
        covered = set()
        segs = f["segments"]
        for i, s in enumerate(segs):
            line, col, count, has_count = s[0], s[1], s[2], s[3]
            if not has_count:
                continue
            end_line = segs[i + 1][0] if i + 1 < len(segs) else line
            for ln in range(line, max(line, end_line - (1 if i + 1 < len(segs) and segs[i + 1][1] == 1 else 0)) + 1):
                (covered if count > 0 else uncovered).add(ln)
        unc = sorted(uncovered - covered)
        summ = f["summary"]["lines"]
        out[name] = {"lines": summ["count"], "covered": summ["covered"], "percent": round(summ["percent"], 1), "uncovered_lines": unc}
    json.dump(out, open(os.path.join(COVDIR, "coverage.json"), "w"), indent=1)
    print(f"\n{'file':70s} {'lines':>6s} {'cov%':>6s}  uncovered line ranges")
    for name in sorted(out):
        o = out[name]
        rngs = []
        for ln in o["uncovered_lines"]:
            if rngs and ln == rngs[-1][1] + 1:
                rngs[-1][1] = ln
            else:
                rngs.append([ln, ln])
        txt = " ".join(f"{a}-{b}" if a != b else f"{a}" for a, b in rngs)
        print(f"{name.replace('/repo/include/quill/', ''):70s} {o['lines']:6d} {o['percent']:6.1f}  {txt[:400]}")
    if not keep:
        sh(f"rm -rf {prof}")
    return 0


if __name__ == "__main__":
    sys.exit(main())
