#!/usr/bin/env python3
"""Regenerates the committed regression replays replays/<ID>/<mutant>.replay: for every fix that was made in /repo the fix
is reverted in a scratch copy (the revert mutants of tools/mutant_list.py), the quick check of the property is run there
and the shrunk failing case is kept. On the real tree every one of them must pass (./check replays them on every run and
reports a failing one as a violation: the defect is back). Choice vectors are interpreted by the harness code, so this has
to be re-run whenever a harness changes the way it consumes choices.  usage: tools/regen_replays.py [--only <substring>]"""
import glob
import os
import subprocess
import sys

ROOT = os.path.dirname(os.path.dirname(os.path.abspath(__file__)))
REVERTS = ["c09-revert-f1", "c10-revert-f2", "c18-revert-f3", "c19-revert-f4-named-scanner", "c04-revert-f4-contains-named-args",
           "c13-revert-f6", "c13-revert-f7", "c20-revert-f9", "c05-revert-f10", "c08-revert-f11", "c13-revert-f14", "c11-revert-f15",
           "c12-revert-f16", "c19-revert-f17", "c05-revert-f21", "c10-revert-f22", "c08-revert-f23", "c15-revert-f8", "c15-daily-plus-24h"]


def main():
    only = sys.argv[2] if len(sys.argv) > 2 and sys.argv[1] == "--only" else None
    for m in REVERTS:
        if only and only not in m:
            continue
        for old in glob.glob(os.path.join(ROOT, "replays", "*", m + ".replay")):
            os.unlink(old)
        r = subprocess.run([sys.executable, os.path.join(ROOT, "tools", "mutants.py"), "--only", m, "--keep"], stdout=subprocess.PIPE,
                           stderr=subprocess.STDOUT, text=True)
        for ln in r.stdout.splitlines():
            if ln.startswith(m):
                print(ln[:200], flush=True)
    kept = sorted(glob.glob(os.path.join(ROOT, "replays", "*", "*.replay")))
    kept = [k for k in kept if not os.path.basename(k).startswith("found-")]
    print(f"{len(kept)} regression replays kept:")
    for k in kept:
        print("  " + os.path.relpath(k, ROOT))


if __name__ == "__main__":
    main()
